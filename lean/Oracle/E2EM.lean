import SigModel.Spec.Metrics
import Oracle.Util
/- suite "e2e_metrics":  me S <series> S <series> … H <history…> Q <query…>   (grammar: harness/cmd/corr/e2e_metrics.go)
     series  : <hexname>{k=<hexv>,…}@<ts>:<16 hex digits>,…
     history : p<seriesIdx>.<pointIdx> | ro | br       (only the referenced points are ingested; ro/br do not occur in the spec)
     query   : <start>/<end>/<style>/<label>~<eq|ne|re|nre>~<hexvalue>;…[/<sum|min|max|avg|count>:<none|by|wo>:<l1+l2|->]
   answer: one segment per query, joined by " | ":
     kind=mseries namere=<0|1> ser=<series>;… cls=<c,…> lat=<l,…>          points <ts>:<16 hex digits>
     kind=magg fn=<fn> ser={k=<hexv>,…}@<ts>:<num>[/<den>],…;… cls=… lat=…   (group label sets, exact rationals) -/
namespace Oracle.E2EM
open SigModel.Spec.Metrics Oracle

def hexStr? (h : String) : Option String :=
  (hexBytes? h).bind (fun bs => String.fromUTF8? (ByteArray.mk (bs.map (fun b => b.toUInt8)).toArray))

def hexOf (s : String) : String := bytesHex (s.toUTF8.toList.map (·.toNat))

/-- `k=<hexv>` or `k=#<hexv>` (# = the value is sent as a bare JSON number by the OTSDB datapoints with an even point
    index); the second component lists the keys marked # -/
def parseLabel (kv : String) : Option ((String × String) × Bool) :=
  match kv.splitOn "=" with
  | [k, v] =>
    let num : Bool := v.startsWith "#"
    (hexStr? (if num then (v.drop 1).toString else v)).map (fun (x : String) => ((k, x), num))
  | _ => none

def parseLabels (s : String) : Option (List (String × String) × List String) :=
  if s.isEmpty then some ([], []) else
  match (s.splitOn ",").mapM parseLabel with
  | none => none
  | some l => some (l.map (·.1), (l.filter (·.2)).map (·.1.1))

def parsePoints (s : String) : Option (List (Nat × Nat)) :=
  if s.isEmpty then some [] else
  (s.splitOn ",").mapM (fun p => match p.splitOn ":" with
    | [t, v] => match t.toNat?, hexNat? v with
      | some t, some v => if v < 2 ^ 64 then some (t, v) else none
      | _, _ => none
    | _ => none)

def parseSeries (tok : String) : Option Series :=
  match tok.splitOn "{" with
  | [n, rest] => match rest.splitOn "}@" with
    | [ls, ps] => match hexStr? n, parseLabels ls, parsePoints ps with
      | some n, some ls, some ps => some { name := n, labels := ls.1, points := ps, numKeys := ls.2 }
      | _, _, _ => none
    | _ => none
  | _ => none

def parseSeriesList : List String → Option (List Series)
  | [] => some []
  | "S" :: tok :: r => match parseSeries tok, parseSeriesList r with
    | some s, some l => some (s :: l)
    | _, _ => none
  | _ => none

/-- the data set after the history: every series keeps exactly the points the history ingests -/
def applyHistory (ss : List Series) (hist : List String) : Option (List Series) :=
  -- p<i>.<j> = OTSDB JSON, w<i>.<j> = Prometheus remote write (same datapoint, other protocol)
  let refs : Option (List (Nat × Nat × Bool)) := (hist.filter (fun t => t != "ro" && t != "br")).mapM (fun t =>
    if t.startsWith "p" || t.startsWith "w" then match ((t.drop 1).toString).splitOn "." with
      | [i, j] => match i.toNat?, j.toNat? with
        | some i, some j =>
          -- (remote write cannot express a tag named __name__: that label IS the metric name there)
          if i < ss.length && j < (ss.getD i default).points.length && !(t.startsWith "w" && (ss.getD i default).keys.contains "__name__")
          then some (i, j, t.startsWith "w") else none
        | _, _ => none
      | _ => none
    else none)
  refs.map (fun refs =>
    (List.range ss.length).map (fun i =>
      let s := ss.getD i default
      let mine := refs.filter (·.1 == i)
      -- a JSON number is sent by the OTSDB datapoints with an even point index only
      let numSent := mine.any (fun (_, j, w) => !w && j % 2 == 0)
      { s with points := mine.map (fun (_, j, _) => s.points.getD j default),
               viaRW := mine.any (·.2.2),
               numKeys := if numSent then s.numKeys else [] }))

def parseMOp (s : String) : Option MOp :=
  match s with | "eq" => some .eq | "ne" => some .ne | "re" => some .re | "nre" => some .nre | _ => none

def parseMatcher (s : String) : Option Matcher :=
  match s.splitOn "~" with
  | [l, op, v] => match parseMOp op, hexStr? v with
    | some op, some v =>
      if (op == .re || op == .nre) && !regexInFragment v then none else some { label := l, op := op, value := v }
    | _, _ => none
  | _ => none

def parseAgg (s : String) : Option Agg :=
  match s.splitOn ":" with
  | [fn, mode, ls] =>
    let fn? : Option AggFn := match fn with
      | "sum" => some .sum | "min" => some .min | "max" => some .max | "avg" => some .avg | "count" => some .count | _ => none
    let mode? : Option AggMode := match mode with
      | "none" => some .none | "by" => some .by | "wo" => some .without | _ => none
    match fn?, mode? with
    | some fn, some mode => some { fn := fn, mode := mode, labels := if ls == "-" then [] else ls.splitOn "+" }
    | _, _ => none
  | _ => none

def parseQuery (tok : String) : Option Query :=
  match tok.splitOn "/" with
  | a :: b :: _style :: ms :: rest =>
    let agg? : Option (Option Agg) := match rest with
      | [] => some none
      | [x] => (parseAgg x).map some
      | _ => none
    match a.toNat?, b.toNat?, (ms.splitOn ";").mapM parseMatcher, agg? with
    | some a, some b, some ms, some ag => if a ≤ b then some { start := a, end_ := b, matchers := ms, agg := ag } else none
    | _, _, _, _ => none
  | _ => none

def showRat (q : Rat) : String := if q.den == 1 then toString q.num else s!"{q.num}/{q.den}"

def showLabels (ls : List (String × String)) : String :=
  "{" ++ ",".intercalate ((sortLabels ls).map (fun (k, v) => k ++ "=" ++ hexOf v)) ++ "}"

def showFn : AggFn → String
  | .sum => "sum" | .min => "min" | .max => "max" | .avg => "avg" | .count => "count"

def sortStrings (l : List String) : List String := sortBy (fun a b => a ≤ b) l

def answer (ds : List Series) (q : Query) : String :=
  match calcInterval (q.end_ - q.start) with
  | none => "kind=bad-range"
  | some _ =>
    let sel := selected ds q
    let cls := ",".intercalate (classes ds q sel)
    let lat := ",".intercalate (latitude q sel)
    match q.agg with
    | none =>
      let namere := if q.matchers.any (fun m => m.label == "__name__" && (m.op == .re || m.op == .nre)) then "1" else "0"
      let ser := sortStrings (sel.map (fun (s, ps) =>
        hexOf s.name ++ showLabels s.labels ++ "@" ++ ",".intercalate (ps.map (fun (t, v) => s!"{t}:{natHexW v 16}"))))
      s!"kind=mseries namere={namere} ser={";".intercalate ser} cls={cls} lat={lat}"
    | some a =>
      match aggregated a sel with
      | none => s!"kind=magg-undefined cls={cls} lat={lat}"
      | some gs =>
        let ser := sortStrings (gs.map (fun (k, pts) =>
          showLabels k ++ "@" ++ ",".intercalate (pts.map (fun (t, v) => s!"{t}:{showRat v}"))))
        s!"kind=magg fn={showFn a.fn} ser={";".intercalate ser} cls={cls} lat={lat}"

/-! ### binary operator between two operands (Spec/Metrics.lean `evalBin`)
   query token:  bin!<op>!<0|1 bool>!<start>!<end>!<styleL>!<matchersL>!<aggL|->!<styleR>!<matchersR>!<aggR|->
   answer:       kind=mbin op=<op> ser={k=<hexv>,…}@<ts>:<num>[/<den>]|<ts>:?,…;… cls=… lat=…      (`?` = not judged) -/

def parseBinOp : String → Option BinOp
  | "add" => some .add | "sub" => some .sub | "mul" => some .mul | "div" => some .div | "mod" => some .mod
  | "pow" => some .pow | "eq" => some .eq | "ne" => some .ne | "gt" => some .gt | "lt" => some .lt
  | "ge" => some .ge | "le" => some .le | "and" => some .and | "or" => some .or | "unless" => some .unless
  | _ => none

def parseOperand (style ms ag : String) : Option Operand :=
  if style != "b" && style != "n" then none else
  let agg? : Option (Option Agg) := if ag == "-" then some none else (parseAgg ag).map some
  match (ms.splitOn ";").mapM parseMatcher, agg? with
  | some ms, some ag => some { matchers := ms, agg := ag }
  | _, _ => none

def parseBinQuery (tok : String) : Option BinQuery :=
  match tok.splitOn "!" with
  | ["bin", op, b, a, e, sl, ml, al, sr, mr, ar] =>
    match parseBinOp op, (if b == "0" then some false else if b == "1" then some true else none), a.toNat?, e.toNat?,
          parseOperand sl ml al, parseOperand sr mr ar with
    | some op, some b, some a, some e, some l, some r =>
      if a ≤ e then some { start := a, end_ := e, op := op, retBool := b, lhs := l, rhs := r } else none
    | _, _, _, _, _, _ => none
  | _ => none

inductive AnyQuery where
  | plain (q : Query)
  | bin (q : BinQuery)

def parseAnyQuery (tok : String) : Option AnyQuery :=
  if tok.startsWith "bin!" then (parseBinQuery tok).map .bin else (parseQuery tok).map .plain

def dedupS (l : List String) : List String := l.foldl (fun acc x => if acc.contains x then acc else acc ++ [x]) []

def answerBin (ds : List Series) (q : BinQuery) : String :=
  match calcInterval (q.end_ - q.start) with
  | none => "kind=bad-range"
  | some _ =>
    let ql := q.lhs.query q
    let qr := q.rhs.query q
    let sl := selected ds ql
    let sr := selected ds qr
    let cls := ",".intercalate (dedupS (classes ds ql sl ++ classes ds qr sr))
    let lat := ",".intercalate (dedupS (latitude ql sl ++ latitude qr sr))
    match evalOperand ds q q.lhs, evalOperand ds q q.rhs with
    | some l, some r =>
      if hasDupLabels (l.map (·.1)) || hasDupLabels (r.map (·.1)) then s!"kind=mbin-undefined cls={cls} lat={lat}" else
      let cls := ",".intercalate (dedupS (classes ds ql sl ++ classes ds qr sr ++ (if binopLabelOrder q l r then ["binop-label-order"] else []) ++
        (if binopTrailingComma q l r then ["binop-trailing-comma"] else [])))
      let ser := sortStrings ((evalBin q.op q.retBool l r).map (fun (k, pts) =>
        showLabels k ++ "@" ++ ",".intercalate ((sortBy (fun a b => a.1 ≤ b.1) pts).map (fun (t, p) => match p with
          | .val v => s!"{t}:{showRat v}"
          | .open => s!"{t}:?"))))
      s!"kind=mbin ser={";".intercalate ser} cls={cls} lat={lat}"
    | _, _ => s!"kind=mbin-undefined cls={cls} lat={lat}"

def answerAny (ds : List Series) : AnyQuery → String
  | .plain q => answer ds q
  | .bin q => answerBin ds q

def me (args : List String) : String :=
  let (ser, r1) := args.span (· != "H")
  let (hist, r2) := (r1.drop 1).span (· != "Q")
  let qs := r2.drop 1
  if r1.isEmpty || r2.isEmpty || qs.isEmpty then "bad-op" else
  match (parseSeriesList ser).bind (applyHistory · hist), qs.mapM parseAnyQuery with
  | some ds, some qs => " | ".intercalate (qs.map (answerAny ds))
  | _, _ => "bad-op"

/-! ### command `mc`: MANY series that share one tag value (cardinality; harness/cmd/corr/e2e_metrics.go execE2EMC)

   mc <n> <hexname> <sharedKey>=<hexv> <idKey> <ts> Q <query…>
   series i (0 ≤ i < n) = name{sharedKey=v, idKey="s<i>"} with the single point (ts, float64(i mod 50)); all of them are
   ingested (OTSDB JSON), no rotation before the queries.  The answer is the specification's (`selected`, `aggregated`);
   the class list is `tsids-per-value-over-64k` iff n > 65535 (the generic `classes` is quadratic in the number of series). -/

/-- float64 bit pattern of a natural number below 2^53 -/
def natF64Bits (k : Nat) : Nat :=
  if k == 0 then 0 else
  let e := Nat.log2 k
  (1023 + e) * 2 ^ 52 + (k - 2 ^ e) * 2 ^ (52 - e)

def mcSeries (n : Nat) (name sk sv ik : String) (ts : Nat) : List Series :=
  (List.range n).map (fun i =>
    { name := name, labels := [(sk, sv), (ik, "s" ++ toString i)], points := [(ts, natF64Bits (i % 50))] })

def answerMc (n : Nat) (ds : List Series) (q : Query) : String :=
  match calcInterval (q.end_ - q.start) with
  | none => "kind=bad-range"
  | some _ =>
    let sel := selected ds q
    let cls := if n > 65535 then "tsids-per-value-over-64k" else ""
    let lat := ",".intercalate (latitude q sel)
    match q.agg with
    | none =>
      let namere := if q.matchers.any (fun m => m.label == "__name__" && (m.op == .re || m.op == .nre)) then "1" else "0"
      let ser := sortStrings (sel.map (fun (s, ps) =>
        hexOf s.name ++ showLabels s.labels ++ "@" ++ ",".intercalate (ps.map (fun (t, v) => s!"{t}:{natHexW v 16}"))))
      s!"kind=mseries namere={namere} ser={";".intercalate ser} cls={cls} lat={lat}"
    | some a =>
      match aggregated a sel with
      | none => s!"kind=magg-undefined cls={cls} lat={lat}"
      | some gs =>
        let ser := sortStrings (gs.map (fun (k, pts) =>
          showLabels k ++ "@" ++ ",".intercalate (pts.map (fun (t, v) => s!"{t}:{showRat v}"))))
        s!"kind=magg fn={showFn a.fn} ser={";".intercalate ser} cls={cls} lat={lat}"

def isLabelName (s : String) : Bool :=
  !s.isEmpty && s.toList.all (fun c => c.isAlphanum || c == '_') && !(s.toList.headD 'a').isDigit

def mc (args : List String) : String :=
  match args with
  | n :: name :: shared :: ik :: ts :: "Q" :: qs =>
    match n.toNat?, hexStr? name, shared.splitOn "=", ts.toNat?, qs.mapM parseQuery with
    | some n, some name, [sk, svh], some ts, some qs =>
      match hexStr? svh with
      | some sv =>
        if n < 1 || n > 200000 || qs.isEmpty || !isLabelName sk || !isLabelName ik || sk == ik || sk == "__name__" || ik == "__name__"
           || ts > 4294967295 then "bad-op"
        else
          let ds := mcSeries n name sk sv ik ts
          " | ".intercalate (qs.map (answerMc n ds))
      | none => "bad-op"
    | _, _, _, _, _ => "bad-op"
  | _ => "bad-op"

def handle (cmd : String) (args : List String) : Option String :=
  match cmd with
  | "me" => some (me args)
  | "mc" => some (mc args)
  | _ => none
end Oracle.E2EM
