import SigModel.Spec.Metrics
import Oracle.Util
/- suite "e2e_metrics":  me S <series> S <series> … H <history…> Q <query…>   (grammar: harness/cmd/corr/e2e_metrics.go)
     series  : <hexname>{k=<hexv>,…}@<ts>:<16 hex digits>,…
     history : p<seriesIdx>.<pointIdx> | ro | br       (only the referenced points are ingested; ro/br do not occur in the spec)
     query   : <start>/<end>/<style>/<label>~<eq|ne|re|nre>~<hexvalue>;…[/<sum|min|max|avg|count>:<none|by|wo>:<l1+l2|->]
   answer: one segment per query, joined by " | ":
     kind=mseries namere=<0|1> ser=<series>;… cls=<c,…> lat=<l,…>          points <ts>:<16 hex digits>
     kind=magg fn=<fn> ser={k=<hexv>,…}@<ts>:<num>[/<den>],…;… cls=… lat=…   (group label sets, exact rationals) -/
namespace Oracle.E2EM
open SigModel.Spec.Metrics Oracle

def hexStr? (h : String) : Option String :=
  (hexBytes? h).bind (fun bs => String.fromUTF8? (ByteArray.mk (bs.map (fun b => b.toUInt8)).toArray))

def hexOf (s : String) : String := bytesHex (s.toUTF8.toList.map (·.toNat))

def parseLabels (s : String) : Option (List (String × String)) :=
  if s.isEmpty then some [] else
  (s.splitOn ",").mapM (fun kv => match kv.splitOn "=" with
    | [k, v] => (hexStr? v).map (fun v => (k, v))
    | _ => none)

def parsePoints (s : String) : Option (List (Nat × Nat)) :=
  if s.isEmpty then some [] else
  (s.splitOn ",").mapM (fun p => match p.splitOn ":" with
    | [t, v] => match t.toNat?, hexNat? v with
      | some t, some v => if v < 2 ^ 64 then some (t, v) else none
      | _, _ => none
    | _ => none)

def parseSeries (tok : String) : Option Series :=
  match tok.splitOn "{" with
  | [n, rest] => match rest.splitOn "}@" with
    | [ls, ps] => match hexStr? n, parseLabels ls, parsePoints ps with
      | some n, some ls, some ps => some { name := n, labels := ls, points := ps }
      | _, _, _ => none
    | _ => none
  | _ => none

def parseSeriesList : List String → Option (List Series)
  | [] => some []
  | "S" :: tok :: r => match parseSeries tok, parseSeriesList r with
    | some s, some l => some (s :: l)
    | _, _ => none
  | _ => none

/-- the data set after the history: every series keeps exactly the points the history ingests -/
def applyHistory (ss : List Series) (hist : List String) : Option (List Series) :=
  let refs : Option (List (Nat × Nat)) := (hist.filter (fun t => t != "ro" && t != "br")).mapM (fun t =>
    if t.startsWith "p" then match ((t.drop 1).toString).splitOn "." with
      | [i, j] => match i.toNat?, j.toNat? with
        | some i, some j => if i < ss.length && j < (ss.getD i default).points.length then some (i, j) else none
        | _, _ => none
      | _ => none
    else none)
  refs.map (fun refs =>
    (List.range ss.length).map (fun i =>
      let s := ss.getD i default
      { s with points := (refs.filter (·.1 == i)).map (fun (_, j) => s.points.getD j default) }))

def parseMOp (s : String) : Option MOp :=
  match s with | "eq" => some .eq | "ne" => some .ne | "re" => some .re | "nre" => some .nre | _ => none

def parseMatcher (s : String) : Option Matcher :=
  match s.splitOn "~" with
  | [l, op, v] => match parseMOp op, hexStr? v with
    | some op, some v =>
      if (op == .re || op == .nre) && !regexInFragment v then none else some { label := l, op := op, value := v }
    | _, _ => none
  | _ => none

def parseAgg (s : String) : Option Agg :=
  match s.splitOn ":" with
  | [fn, mode, ls] =>
    let fn? : Option AggFn := match fn with
      | "sum" => some .sum | "min" => some .min | "max" => some .max | "avg" => some .avg | "count" => some .count | _ => none
    let mode? : Option AggMode := match mode with
      | "none" => some .none | "by" => some .by | "wo" => some .without | _ => none
    match fn?, mode? with
    | some fn, some mode => some { fn := fn, mode := mode, labels := if ls == "-" then [] else ls.splitOn "+" }
    | _, _ => none
  | _ => none

def parseQuery (tok : String) : Option Query :=
  match tok.splitOn "/" with
  | a :: b :: _style :: ms :: rest =>
    let agg? : Option (Option Agg) := match rest with
      | [] => some none
      | [x] => (parseAgg x).map some
      | _ => none
    match a.toNat?, b.toNat?, (ms.splitOn ";").mapM parseMatcher, agg? with
    | some a, some b, some ms, some ag => if a ≤ b then some { start := a, end_ := b, matchers := ms, agg := ag } else none
    | _, _, _, _ => none
  | _ => none

def showRat (q : Rat) : String := if q.den == 1 then toString q.num else s!"{q.num}/{q.den}"

def showLabels (ls : List (String × String)) : String :=
  "{" ++ ",".intercalate ((sortLabels ls).map (fun (k, v) => k ++ "=" ++ hexOf v)) ++ "}"

def showFn : AggFn → String
  | .sum => "sum" | .min => "min" | .max => "max" | .avg => "avg" | .count => "count"

def sortStrings (l : List String) : List String := sortBy (fun a b => a ≤ b) l

def answer (ds : List Series) (q : Query) : String :=
  match calcInterval (q.end_ - q.start) with
  | none => "kind=bad-range"
  | some _ =>
    let sel := selected ds q
    let cls := ",".intercalate (classes ds q sel)
    let lat := ",".intercalate (latitude q sel)
    match q.agg with
    | none =>
      let namere := if q.matchers.any (fun m => m.label == "__name__" && (m.op == .re || m.op == .nre)) then "1" else "0"
      let ser := sortStrings (sel.map (fun (s, ps) =>
        hexOf s.name ++ showLabels s.labels ++ "@" ++ ",".intercalate (ps.map (fun (t, v) => s!"{t}:{natHexW v 16}"))))
      s!"kind=mseries namere={namere} ser={";".intercalate ser} cls={cls} lat={lat}"
    | some a =>
      match aggregated a sel with
      | none => s!"kind=magg-undefined cls={cls} lat={lat}"
      | some gs =>
        let ser := sortStrings (gs.map (fun (k, pts) =>
          showLabels k ++ "@" ++ ",".intercalate (pts.map (fun (t, v) => s!"{t}:{showRat v}"))))
        s!"kind=magg fn={showFn a.fn} ser={";".intercalate ser} cls={cls} lat={lat}"

def me (args : List String) : String :=
  let (ser, r1) := args.span (· != "H")
  let (hist, r2) := (r1.drop 1).span (· != "Q")
  let qs := r2.drop 1
  if r1.isEmpty || r2.isEmpty || qs.isEmpty then "bad-op" else
  match (parseSeriesList ser).bind (applyHistory · hist), qs.mapM parseQuery with
  | some ds, some qs => " | ".intercalate (qs.map (answer ds))
  | _, _ => "bad-op"

def handle (cmd : String) (args : List String) : Option String :=
  match cmd with
  | "me" => some (me args)
  | _ => none
end Oracle.E2EM
