import SigModel.Spec.Metrics
import Oracle.Util
/- suite "e2e_metrics":  me S <series> S <series> … H <history…> Q <query…>   (grammar: harness/cmd/corr/e2e_metrics.go)
     series  : <hexname>{k=<hexv>,…}@<ts>:<16 hex digits>,…
     history : p<seriesIdx>.<pointIdx> | ro | br       (only the referenced points are ingested; ro/br do not occur in the spec)
     query   : <start>/<end>/<style>/<label>~<eq|ne|re|nre>~<hexvalue>;…[/<sum|min|max|avg|count>:<none|by|wo>:<l1+l2|->]
   answer: one segment per query, joined by " | ":
     kind=mseries namere=<0|1> ser=<series>;… cls=<c,…> lat=<l,…>          points <ts>:<16 hex digits>
     kind=magg fn=<fn> ser={k=<hexv>,…}@<ts>:<num>[/<den>],…;… cls=… lat=…   (group label sets, exact rationals) -/
namespace Oracle.E2EM
open SigModel.Spec.Metrics Oracle

def hexStr? (h : String) : Option String :=
  (hexBytes? h).bind (fun bs => String.fromUTF8? (ByteArray.mk (bs.map (fun b => b.toUInt8)).toArray))

def hexOf (s : String) : String := bytesHex (s.toUTF8.toList.map (·.toNat))

/-- `k=<hexv>`, `k=#<hexv>` (# = the value is sent as a bare JSON number by the OTSDB datapoints with an even point
    index), `k=^<hexv>` (^ = the OTSDB datapoints with an odd point index spell the first byte of the value as a \u00XX
    escape: the same value), `k=!t` / `k=!n` / `k=!q<hexv>` (the value is sent as JSON true / null / as the string
    <v>\q, an invalid escape sequence: not a tag value, the datapoint must be rejected);
    the flag is 1 for #, 2 for the ! forms, 3 for ^, 0 otherwise -/
def parseLabel (kv : String) : Option ((String × String) × Nat) :=
  match kv.splitOn "=" with
  | [k, v] =>
    if v == "!t" then some ((k, "true"), 2) else
    if v == "!n" then some ((k, "null"), 2) else
    if v.startsWith "!q" then (hexStr? (v.drop 2).toString).map (fun (x : String) => ((k, x), 2)) else
    if v.startsWith "!" then none else
    let num : Bool := v.startsWith "#"
    let esc : Bool := v.startsWith "^"
    (hexStr? (if num || esc then (v.drop 1).toString else v)).map (fun (x : String) => ((k, x), if num then 1 else if esc then 3 else 0))
  | _ => none

/-- labels, keys marked #, keys of the ! forms, keys marked ^ -/
def parseLabels (s : String) : Option (List (String × String) × List String × List String × List String) :=
  if s.isEmpty then some ([], [], [], []) else
  match (s.splitOn ",").mapM parseLabel with
  | none => none
  | some l => some (l.map (·.1), (l.filter (·.2 == 1)).map (·.1.1), (l.filter (·.2 == 2)).map (·.1.1), (l.filter (·.2 == 3)).map (·.1.1))

def parsePoints (s : String) : Option (List (Nat × Nat)) :=
  if s.isEmpty then some [] else
  (s.splitOn ",").mapM (fun p => match p.splitOn ":" with
    | [t, v] => match t.toNat?, hexNat? v with
      | some t, some v => if v < 2 ^ 64 then some (t, v) else none
      | _, _ => none
    | _ => none)

def parseSeries (tok : String) : Option Series :=
  match tok.splitOn "{" with
  | [n, rest] => match rest.splitOn "}@" with
    -- a leading ^ : the OTSDB datapoints with an odd point index spell the first byte of the NAME as a \u00XX escape
    | [ls, ps] => match hexStr? (if n.startsWith "^" then (n.drop 1).toString else n), parseLabels ls, parsePoints ps with
      | some nm, some ls, some ps => some { name := nm, labels := ls.1, points := ps, numKeys := ls.2.1, badKeys := ls.2.2.1, escKeys := ls.2.2.2, nameEscaped := n.startsWith "^" }
      | _, _, _ => none
    | _ => none
  | _ => none

def parseSeriesList : List String → Option (List Series)
  | [] => some []
  | "S" :: tok :: r => match parseSeries tok, parseSeriesList r with
    | some s, some l => some (s :: l)
    | _, _ => none
  | _ => none

/-- the data set after the history: every series keeps exactly the points the history ingests -/
def applyHistory (ss : List Series) (hist : List String) : Option (List Series) :=
  -- p<i>.<j> = OTSDB JSON, w<i>.<j> = Prometheus remote write (same datapoint, other protocol)
  let refs : Option (List (Nat × Nat × Bool)) := (hist.filter (fun t => t != "ro" && t != "br" && t != "tf" && t != "cr")).mapM (fun t =>
    if t.startsWith "p" || t.startsWith "w" then match ((t.drop 1).toString).splitOn "." with
      | [i, j] => match i.toNat?, j.toNat? with
        | some i, some j =>
          -- (remote write cannot express a tag named __name__: that label IS the metric name there)
          if i < ss.length && j < (ss.getD i default).points.length &&
             !(t.startsWith "w" && ((ss.getD i default).keys.contains "__name__" || !(ss.getD i default).badKeys.isEmpty))
          then some (i, j, t.startsWith "w") else none
        | _, _ => none
      | _ => none
    else none)
  refs.map (fun refs =>
    (List.range ss.length).map (fun i =>
      let s := ss.getD i default
      let mine := refs.filter (·.1 == i)
      -- a JSON number is sent by the OTSDB datapoints with an even point index only
      let numSent := mine.any (fun (_, j, w) => !w && j % 2 == 0)
      { s with points := mine.map (fun (_, j, _) => s.points.getD j default),
               viaRW := mine.any (·.2.2),
               -- the escaped spelling is sent by the OTSDB datapoints with an odd point index only
               nameEscaped := s.nameEscaped && mine.any (fun (_, j, w) => !w && j % 2 == 1),
               -- … and so is the escaped spelling of a value; it only matters next to a datapoint with the plain spelling
               escKeys := if mine.any (fun (_, j, w) => !w && j % 2 == 1) && mine.any (fun (_, j, w) => w || j % 2 == 0) then s.escKeys else [],
               numKeys := if numSent then s.numKeys else [] }))

/-- history tokens `tf` (one pass of the tags-tree flush timer) and `cr` (the WAL timers run once, the process is killed,
    a new process recovers): does some crash hit an accepted series whose tags are in memory only — a series seen for the
    first time since the last segment rotation / restart and after the last tags-tree flush?  (known finding
    `crash-before-tags-flush`: the tags trees are in no WAL) -/
def crashBeforeTagsFlush (ss : List Series) (hist : List String) : Bool :=
  let step (st : List Nat × List Nat × Bool) (t : String) : List Nat × List Nat × Bool :=
    let (flushed, dirty, risk) := st
    if t == "tf" then (flushed ++ dirty, [], risk)
    else if t == "ro" then ([], [], risk)
    else if t == "cr" then ([], [], risk || !dirty.isEmpty)
    else if t.startsWith "p" || t.startsWith "w" then
      match ((t.drop 1).toString.splitOn ".").head?.bind (·.toNat?) with
      | some i => if accepted (ss.getD i default) && !flushed.contains i && !dirty.contains i then (flushed, i :: dirty, risk) else st
      | none => st
    else st
  (hist.foldl step ([], [], false)).2.2

def parseMOp (s : String) : Option MOp :=
  match s with | "eq" => some .eq | "ne" => some .ne | "re" => some .re | "nre" => some .nre | _ => none

def parseMatcher (s : String) : Option Matcher :=
  match s.splitOn "~" with
  | [l, op, v] => match parseMOp op, hexStr? v with
    | some op, some v =>
      if (op == .re || op == .nre) && !regexInFragment v then none else some { label := l, op := op, value := v }
    | _, _ => none
  | _ => none

def parseAgg (s : String) : Option Agg :=
  match s.splitOn ":" with
  | [fn, mode, ls] =>
    let fn? : Option AggFn := match fn with
      | "sum" => some .sum | "min" => some .min | "max" => some .max | "avg" => some .avg | "count" => some .count | _ => none
    let mode? : Option AggMode := match mode with
      | "none" => some .none | "by" => some .by | "wo" => some .without | _ => none
    match fn?, mode? with
    | some fn, some mode => some { fn := fn, mode := mode, labels := if ls == "-" then [] else ls.splitOn "+" }
    | _, _ => none
  | _ => none

def parseQuery (tok : String) : Option Query :=
  match tok.splitOn "/" with
  | a :: b :: _style :: ms :: rest =>
    let agg? : Option (Option Agg) := match rest with
      | [] => some none
      | [x] => (parseAgg x).map some
      | _ => none
    match a.toNat?, b.toNat?, (ms.splitOn ";").mapM parseMatcher, agg? with
    | some a, some b, some ms, some ag => if a ≤ b then some { start := a, end_ := b, matchers := ms, agg := ag } else none
    | _, _, _, _ => none
  | _ => none

def showRat (q : Rat) : String := if q.den == 1 then toString q.num else s!"{q.num}/{q.den}"

def showLabels (ls : List (String × String)) : String :=
  "{" ++ ",".intercalate ((sortLabels ls).map (fun (k, v) => k ++ "=" ++ hexOf v)) ++ "}"

def showFn : AggFn → String
  | .sum => "sum" | .min => "min" | .max => "max" | .avg => "avg" | .count => "count"

def sortStrings (l : List String) : List String := sortBy (fun a b => a ≤ b) l

def answer (xcls : List String) (ds : List Series) (q : Query) : String :=
  match calcInterval (q.end_ - q.start) with
  | none => "kind=bad-range"
  | some _ =>
    let sel := selected ds q
    let cls := ",".intercalate (classes ds q sel ++ xcls)
    let lat := ",".intercalate (latitude q sel)
    match q.agg with
    | none =>
      let namere := if q.matchers.any (fun m => m.label == "__name__" && (m.op == .re || m.op == .nre)) then "1" else "0"
      let ser := sortStrings (sel.map (fun (s, ps) =>
        hexOf s.name ++ showLabels s.labels ++ "@" ++ ",".intercalate (ps.map (fun (t, v) => s!"{t}:{natHexW v 16}"))))
      s!"kind=mseries namere={namere} ser={";".intercalate ser} cls={cls} lat={lat}"
    | some a =>
      match aggregated a sel with
      | none => s!"kind=magg-undefined cls={cls} lat={lat}"
      | some gs =>
        let ser := sortStrings (gs.map (fun (k, pts) =>
          showLabels k ++ "@" ++ ",".intercalate (pts.map (fun (t, v) => s!"{t}:{showRat v}"))))
        s!"kind=magg fn={showFn a.fn} ser={";".intercalate ser} cls={cls} lat={lat}"

/-! ### binary operator between two operands (Spec/Metrics.lean `evalBin`)
   query token:  bin!<op>!<0|1 bool>!<start>!<end>!<styleL>!<matchersL>!<aggL|->!<styleR>!<matchersR>!<aggR|->
   answer:       kind=mbin op=<op> ser={k=<hexv>,…}@<ts>:<num>[/<den>]|<ts>:?,…;… cls=… lat=…      (`?` = not judged) -/

def parseBinOp : String → Option BinOp
  | "add" => some .add | "sub" => some .sub | "mul" => some .mul | "div" => some .div | "mod" => some .mod
  | "pow" => some .pow | "eq" => some .eq | "ne" => some .ne | "gt" => some .gt | "lt" => some .lt
  | "ge" => some .ge | "le" => some .le | "and" => some .and | "or" => some .or | "unless" => some .unless
  | _ => none

def parseOperand (style ms ag : String) : Option Operand :=
  if style != "b" && style != "n" then none else
  let agg? : Option (Option Agg) := if ag == "-" then some none else (parseAgg ag).map some
  match (ms.splitOn ";").mapM parseMatcher, agg? with
  | some ms, some ag => some { matchers := ms, agg := ag }
  | _, _ => none

def parseBinQuery (tok : String) : Option BinQuery :=
  match tok.splitOn "!" with
  | ["bin", op, b, a, e, sl, ml, al, sr, mr, ar] =>
    match parseBinOp op, (if b == "0" then some false else if b == "1" then some true else none), a.toNat?, e.toNat?,
          parseOperand sl ml al, parseOperand sr mr ar with
    | some op, some b, some a, some e, some l, some r =>
      if a ≤ e then some { start := a, end_ := e, op := op, retBool := b, lhs := l, rhs := r } else none
    | _, _, _, _, _, _ => none
  | _ => none

/-! ### expressions (Spec/Metrics.lean `evalExpr`): scalar operands, unary minus, on()/ignoring(), nesting
   query token:  bx!<start>!<end>!<expr>      with <expr> in prefix form, fields separated by `!`:
                 fx!<start>!<end>!<expr>      the same expression sent through the FORMULA route (named queries a, b, …,
                                              one per distinct operand text, formula over the names): same value (Spec `formulaJudged`)
     v!<style>!<matchers>!<agg|->                      a vector operand (as in `bin!`)
     s!<numerator>!<denominator>                       a number literal (an integer or a short decimal, as a fraction)
     n!<expr>                                          unary minus
     o!<op>!<0|1 bool>!<d|on|ig>!<l1+l2|->!<expr>!<expr>   binary operator; matching: default / on(l…) / ignoring(l…)
   answer:       kind=mbin ser=… cls=… lat=…            as for `bin!` -/

def parseVMatch (k ls : String) : Option VMatch :=
  let l := if ls == "-" then [] else ls.splitOn "+"
  match k with
  | "d" => if ls == "-" then some .default else none
  | "on" => some (.on l)
  | "ig" => some (.ignoring l)
  | _ => none

def parseInt? (s : String) : Option Int :=
  if s.startsWith "-" then ((s.drop 1).toString.toNat?).map (fun n => -(n : Int)) else s.toNat?.map (fun n => (n : Int))

/-- one expression from the front of the token list; the fuel bounds the recursion -/
def parseExpr : Nat → List String → Option (Expr × List String)
  | 0, _ => none
  | fuel + 1, toks =>
    match toks with
    | "v" :: st :: ms :: ag :: rest => (parseOperand st ms ag).map (fun o => (Expr.vec o, rest))
    | "s" :: a :: b :: rest => match parseInt? a, b.toNat? with
      | some a, some b => if b == 0 then none else some (Expr.num ((a : Rat) / (b : Rat)), rest)
      | _, _ => none
    | "n" :: rest => (parseExpr fuel rest).map (fun (e, r) => (Expr.neg e, r))
    | "o" :: op :: b :: mk :: ls :: rest =>
      match parseBinOp op, (if b == "0" then some false else if b == "1" then some true else none), parseVMatch mk ls with
      | some op, some b, some m =>
        (parseExpr fuel rest).bind (fun (l, r1) => (parseExpr fuel r1).map (fun (r, r2) => (Expr.bin op b m l r, r2)))
      | _, _, _ => none
    | _ => none

structure ExprQuery where
  start : Nat
  end_ : Nat
  expr : Expr
  formula : Bool := false   -- token `fx!`: the same expression sent as a FORMULA over named queries (Spec: formulaJudged)

def parseExprQuery (tok : String) : Option ExprQuery :=
  match tok.splitOn "!" with
  | rt :: a :: e :: rest =>
    if rt != "bx" && rt != "fx" then none else
    match a.toNat?, e.toNat?, parseExpr (rest.length + 1) rest with
    | some a, some e, some (x, []) => if a ≤ e then some { start := a, end_ := e, expr := x, formula := rt == "fx" } else none
    | _, _, _ => none
  | _ => none

/-- `lv/<start>/<end>/<label>`: GET /promql/api/v1/label/<label>/values -/
structure LvQuery where
  start : Nat
  end_ : Nat
  label : String

def parseLvQuery (tok : String) : Option LvQuery :=
  match tok.splitOn "/" with
  | ["lv", a, b, l] => match a.toNat?, b.toNat? with
    | some a, some b => if a ≤ b && !l.isEmpty && l != "__name__" then some { start := a, end_ := b, label := l } else none
    | _, _ => none
  | _ => none

inductive AnyQuery where
  | plain (q : Query)
  | bin (q : BinQuery)
  | expr (q : ExprQuery)
  | lv (q : LvQuery)

def parseAnyQuery (tok : String) : Option AnyQuery :=
  if tok.startsWith "bin!" then (parseBinQuery tok).map .bin
  else if tok.startsWith "bx!" || tok.startsWith "fx!" then (parseExprQuery tok).map .expr
  else if tok.startsWith "lv/" then (parseLvQuery tok).map .lv
  else (parseQuery tok).map .plain

def dedupS (l : List String) : List String := l.foldl (fun acc x => if acc.contains x then acc else acc ++ [x]) []

def showPt : BinPt → String
  | .val v => showRat v
  | .inf n => if n then "-inf" else "inf"
  | .nan => "nan"
  | .open => "?"

def showXElems (es : List XElem) : String :=
  ";".intercalate (sortStrings (es.map (fun (k, pts) =>
    showLabels k ++ "@" ++ ",".intercalate ((sortBy (fun a b => a.1 ≤ b.1) pts).map (fun (t, p) => s!"{t}:{showPt p}")))))

def answerBin (xcls : List String) (ds : List Series) (q : BinQuery) : String :=
  match calcInterval (q.end_ - q.start) with
  | none => "kind=bad-range"
  | some _ =>
    let ql := q.lhs.query q
    let qr := q.rhs.query q
    let sl := selected ds ql
    let sr := selected ds qr
    let cls := ",".intercalate (dedupS (classes ds ql sl ++ classes ds qr sr ++ xcls))
    let lat := ",".intercalate (dedupS (latitude ql sl ++ latitude qr sr))
    match evalOperand ds q q.lhs, evalOperand ds q q.rhs with
    | some l, some r =>
      if hasDupLabels (l.map (·.1)) || hasDupLabels (r.map (·.1)) then s!"kind=mbin-undefined cls={cls} lat={lat}" else
      let cls := ",".intercalate (dedupS (classes ds ql sl ++ classes ds qr sr ++ xcls ++ (if binopLabelOrder q l r then ["binop-label-order"] else []) ++
        (if binopTrailingComma q l r then ["binop-trailing-comma"] else []) ++ vvClasses .default q.op (l.map liftElem) (r.map liftElem)))
      s!"kind=mbin ser={showXElems (evalBin q.op q.retBool l r)} cls={cls} lat={lat}"
    | _, _ => s!"kind=mbin-undefined cls={cls} lat={lat}"

def answerExpr (xcls : List String) (ds : List Series) (q : ExprQuery) : String :=
  match calcInterval (q.end_ - q.start) with
  | none => "kind=bad-range"
  | some _ =>
    let ops := q.expr.operands
    let qs : List Query := ops.map (fun o => { start := q.start, end_ := q.end_, matchers := o.matchers, agg := o.agg })
    let cls := ",".intercalate (dedupS (qs.flatMap (fun qq => classes ds qq (selected ds qq)) ++ xcls ++ exprClasses ds q.start q.end_ q.expr))
    let lat := ",".intercalate (dedupS (qs.flatMap (fun qq => latitude qq (selected ds qq))))
    -- the FORMULA route is judged only where the engine's label-free convention for formulas cannot differ from PromQL
    if q.formula && !formulaJudged ds q.start q.end_ q.expr then s!"kind=mbin-undefined cls={cls} lat=formula-loose-matching" else
    match evalExpr ds q.start q.end_ q.expr with
    | some (.vector es) => s!"kind=mbin ser={showXElems es} cls={cls} lat={lat}"
    | _ => s!"kind=mbin-undefined cls={cls} lat={lat}"

/-- the values of a label over the accepted series that hold at least one ingested point (the tags trees are not
    indexed by time: the range is not applied to the points) -/
def answerLv (xcls : List String) (ds : List Series) (q : LvQuery) : String :=
  let vals := dedupS (((ds.filter accepted).filter (fun s => !s.points.isEmpty)).filterMap (fun s =>
    (s.labels.find? (·.1 == q.label)).map (·.2)))
  -- (repaired, c09-24) the rotated tags tree of a key was read for its first metric only
  let names := dedupS (((ds.filter accepted).filter (fun s => !s.points.isEmpty && s.keys.contains q.label)).map (·.name))
  let cls := ",".intercalate (xcls ++ (if (ds.filter (fun s => !s.points.isEmpty)).any (fun s => !s.badKeys.isEmpty) then ["tag-value-not-a-string"] else [])
    ++ (if names.length > 1 then ["label-values-first-metric-only"] else [])
    -- (repaired, c09-17) the values of every tag key of the time range were returned
    ++ (if ((ds.filter accepted).filter (fun s => !s.points.isEmpty)).any (fun s => s.keys.any (· != q.label)) then ["label-values-of-all-keys"] else []))
  s!"kind=mlv vals={",".intercalate (sortStrings (vals.map (fun v => "x" ++ hexOf v)))} cls={cls} lat="

def answerAny (xcls : List String) (ds : List Series) : AnyQuery → String
  | .plain q => answer xcls ds q
  | .bin q => answerBin xcls ds q
  | .expr q => answerExpr xcls ds q
  | .lv q => answerLv xcls ds q

def me (args : List String) : String :=
  let (ser, r1) := args.span (· != "H")
  let (hist, r2) := (r1.drop 1).span (· != "Q")
  let qs := r2.drop 1
  if r1.isEmpty || r2.isEmpty || qs.isEmpty then "bad-op" else
  match parseSeriesList ser, qs.mapM parseAnyQuery with
  | some ss, some qs =>
    match applyHistory ss hist with
    | some ds =>
      let xcls := if crashBeforeTagsFlush ss hist then ["crash-before-tags-flush"] else []
      " | ".intercalate (qs.map (answerAny xcls ds))
    | none => "bad-op"
  | _, _ => "bad-op"

/-! ### command `mc`: MANY series that share one tag value (cardinality; harness/cmd/corr/e2e_metrics.go execE2EMC)

   mc <n> <hexname> <sharedKey>=<hexv> <idKey> <ts> Q <query…>
   series i (0 ≤ i < n) = name{sharedKey=v, idKey="s<i>"} with the single point (ts, float64(i mod 50)); all of them are
   ingested (OTSDB JSON), no rotation before the queries.  The answer is the specification's (`selected`, `aggregated`);
   the class list is `tsids-per-value-over-64k` iff n > 65535 (the generic `classes` is quadratic in the number of series). -/

/-- float64 bit pattern of a natural number below 2^53 -/
def natF64Bits (k : Nat) : Nat :=
  if k == 0 then 0 else
  let e := Nat.log2 k
  (1023 + e) * 2 ^ 52 + (k - 2 ^ e) * 2 ^ (52 - e)

def mcSeries (n : Nat) (name sk sv ik : String) (ts : Nat) : List Series :=
  (List.range n).map (fun i =>
    { name := name, labels := [(sk, sv), (ik, "s" ++ toString i)], points := [(ts, natF64Bits (i % 50))] })

def answerMc (n : Nat) (ds : List Series) (q : Query) : String :=
  match calcInterval (q.end_ - q.start) with
  | none => "kind=bad-range"
  | some _ =>
    let sel := selected ds q
    let cls := if n > 65535 then "tsids-per-value-over-64k" else ""
    let lat := ",".intercalate (latitude q sel)
    match q.agg with
    | none =>
      let namere := if q.matchers.any (fun m => m.label == "__name__" && (m.op == .re || m.op == .nre)) then "1" else "0"
      let ser := sortStrings (sel.map (fun (s, ps) =>
        hexOf s.name ++ showLabels s.labels ++ "@" ++ ",".intercalate (ps.map (fun (t, v) => s!"{t}:{natHexW v 16}"))))
      s!"kind=mseries namere={namere} ser={";".intercalate ser} cls={cls} lat={lat}"
    | some a =>
      match aggregated a sel with
      | none => s!"kind=magg-undefined cls={cls} lat={lat}"
      | some gs =>
        let ser := sortStrings (gs.map (fun (k, pts) =>
          showLabels k ++ "@" ++ ",".intercalate (pts.map (fun (t, v) => s!"{t}:{showRat v}"))))
        s!"kind=magg fn={showFn a.fn} ser={";".intercalate ser} cls={cls} lat={lat}"

def isLabelName (s : String) : Bool :=
  !s.isEmpty && s.toList.all (fun c => c.isAlphanum || c == '_') && !(s.toList.headD 'a').isDigit

def mc (args : List String) : String :=
  match args with
  | n :: name :: shared :: ik :: ts :: "Q" :: qs =>
    match n.toNat?, hexStr? name, shared.splitOn "=", ts.toNat?, qs.mapM parseQuery with
    | some n, some name, [sk, svh], some ts, some qs =>
      match hexStr? svh with
      | some sv =>
        if n < 1 || n > 200000 || qs.isEmpty || !isLabelName sk || !isLabelName ik || sk == ik || sk == "__name__" || ik == "__name__"
           || ts > 4294967295 then "bad-op"
        else
          let ds := mcSeries n name sk sv ik ts
          " | ".intercalate (qs.map (answerMc n ds))
      | none => "bad-op"
    | _, _, _, _, _ => "bad-op"
  | _ => "bad-op"

def handle (cmd : String) (args : List String) : Option String :=
  match cmd with
  | "me" => some (me args)
  | "mc" => some (mc args)
  | _ => none
end Oracle.E2EM
