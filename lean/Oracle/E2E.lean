import SigModel.Spec.Logs
import Oracle.Util
/- suite "e2e*": e2e <cfg…> H <history…> Q <query…>   (grammar: harness/cmd/corr/e2e_suite.go)
   answer: one segment per query, joined by " | ":
     ids  → kind=ids order=<vid,…> must=<vid,…> may=<vid,…> cls=<c,…>
     recs → kind=recs recs=<vid>{k=tv,…};… nsgrant=<vid>:<col>,…   (numeric strings whose OWN block holds a JSON number in that column)
     stats→ kind=stats rows=<k1\x1fk2>=<agg;agg>,…   (values exact rationals num/den)
     tc   → kind=tchart rows=<cell start>:<series>=<agg;agg>,… [rows2=…]   series: - (no by-field) | ~ (NULL series) | hex(key)
   further answers: tail → kind=tail n=<n> order=… ots=… ; dedup → kind=dedup groups=<hexkey>@<ts>:<vid+vid>,… ;
     top / rare → kind=top rare=<0|1> limit=<n|-> rows=<hexkey>=<count>,… total=<matched> withf=<matched events having the field>
   filter stages (any number, before the answer stage): where:… | regex:<f>:<eq|ne>:<hexglob> (`| regex f="…"`, the glob written
     as an anchored / unanchored regular expression, exact case) | win:<f>:<lit+lit> (`| where in(f, …)`) |
     tm:<startSec>:<endSec> (`earliest=… latest=…` in the query text: the range of the request is replaced) | sql (the query is
     sent through the SQL front end: same meaning, text literals in exact case or not as the front end likes)
   stages: stats / tc, their variants pstats / ptc (the same command behind `| eval verif_pp=1`, which makes the engine run
   it in the stats / timechart PROCESSOR instead of the search stage: same specification), where:<f>:<op>:<lit> (`| where`).
   Events that were sent but not flushed when the queries run are visible or not as the engine likes, consistently (`unfl=`).
   history tokens `rq/<filter>` (a query run in the middle of the history, answer discarded) and query tokens `w` (wait
   for the background persistent-query write) and `pqcheck` (state of the back-fill queue, checked on the Go side) do not
   change the specification's answer. -/
namespace Oracle.E2E
open SigModel.Spec Oracle

def hexStr? (h : String) : Option String :=
  (hexBytes? h).bind (fun bs => String.fromUTF8? (ByteArray.mk (bs.map (fun b => b.toUInt8)).toArray))

def parseVal (s : String) : Option (Option Val) :=   -- some none = explicit null
  let tag := (s.take 1).toString
  let rest := (s.drop 1).toString
  match tag with
  | "i" => (int? rest).map (fun i => some (Val.int i))
  | "d" => (parseDec rest).map (fun q => some (Val.dec q rest))
  | "s" => (if rest.isEmpty then some "" else hexStr? rest).map (fun t => some (Val.str t))
  | "b" => if rest == "1" then some (some (.bool true)) else if rest == "0" then some (some (.bool false)) else none
  | "z" => if rest.isEmpty then some none else none
  | "r" =>   -- r<n>.<hexunit>: the unit repeated and cut to n bytes (long values without long op lines; ASCII units)
    match rest.splitOn "." with
    | [n, h] => match n.toNat?, hexStr? h with
      | some n, some u => if u.isEmpty then none else
          some (some (Val.str (((String.join (List.replicate (n / u.length + 1) u)).take n).toString)))
      | _, _ => none
    | _ => none
  | _ => none

def parseFields (s : String) : Option (List (String × Val)) :=
  if s == "-" then some [] else
  ((s.splitOn ",").mapM (fun (kv : String) => match kv.splitOn "~" with
    | [k, v] => (parseVal v).map (fun (ov : Option Val) => ov.map (fun x => (k, x)))
    | _ => (none : Option (Option (String × Val))))).map (fun (l : List (Option (String × Val))) => l.filterMap id)

def parseEv (tok : String) : Option Event :=
  match tok.splitOn "/" with
  | ["ev", v, t, f] => match v.toNat?, t.toNat?, parseFields f with
    | some v, some t, some f => some { vid := v, ts := t, fields := f }
    | _, _, _ => none
  | _ => none

def parseOp (s : String) : Option Op :=
  match s with | "eq" => some .eq | "ne" => some .ne | "lt" => some .lt | "le" => some .le | "gt" => some .gt | "ge" => some .ge | _ => none

def parseLit (s : String) : Option Lit :=
  let tag := (s.take 1).toString
  let rest := (s.drop 1).toString
  match tag with
  | "i" => (int? rest).map Lit.int
  | "d" => (parseDec rest).map (fun q => Lit.dec q rest)
  | "s" | "w" => (if rest.isEmpty then some "" else hexStr? rest).map Lit.str
  | _ => none

def parseFilter (s : String) : Option Filter :=
  let step (st : Option (List Filter)) (tok : String) : Option (List Filter) :=
    st.bind (fun stack =>
      match tok.splitOn ":" with
      | ["all"] => some (Filter.all :: stack)
      | ["t", h] => (hexStr? h).map (fun w => Filter.term w :: stack)
      | ["tc", h] => (hexStr? h).bind (fun w => if w.isEmpty || w.contains ' ' then none else some (Filter.phrase true w :: stack))
      | ["p", h] => (hexStr? h).bind (fun w => if w.isEmpty then none else some (Filter.phrase false w :: stack))
      | ["pc", h] => (hexStr? h).bind (fun w => if w.isEmpty then none else some (Filter.phrase true w :: stack))
      | ["c", f, op, l] => match parseOp op, parseLit l with
        | some op, some l => some (Filter.cmp f op l :: stack)
        | _, _ => none
      | ["and"] => match stack with | b :: a :: r => some (Filter.and a b :: r) | _ => none
      | ["or"] => match stack with | b :: a :: r => some (Filter.or a b :: r) | _ => none
      | ["not"] => match stack with | a :: r => some (Filter.not a :: r) | _ => none
      | _ => none)
  match (s.splitOn ",").foldl step (some []) with
  | some [f] => some f
  | _ => none

inductive Stage where
  | stats (aggs : List Agg) (bys : List String)
  | recs
  | pages (k : Nat)
  | tc (span : Nat) (aggs : List Agg) (by_ : Option String)
  | where_ (f : String) (op : Op) (l : Lit)
  | regex (f : String) (op : Op) (glob : String)
  | win (f : String) (ls : List Lit)
  | tm (startSec endSec : Nat)
  | sql
  | head (n : Nat)
  | tail (n : Nat)
  | dedup (f : String)
  | top (rare : Bool) (f : String) (limit : Option Nat)
deriving Repr

def parseAgg (s : String) : Option Agg :=
  match s.splitOn "." with
  | ["count"] => some .count
  | "sum" :: f => some (.sum (".".intercalate f))
  | "min" :: f => some (.min (".".intercalate f))
  | "max" :: f => some (.max (".".intercalate f))
  | "avg" :: f => some (.avg (".".intercalate f))
  | "dc" :: f => some (.dc (".".intercalate f))
  | "cnt" :: f => if f.isEmpty then none else some (.cnt (".".intercalate f))
  | _ => none

def showAgg : Agg → String
  | .count => "count" | .sum f => "sum." ++ f | .min f => "min." ++ f | .max f => "max." ++ f | .avg f => "avg." ++ f | .dc f => "dc." ++ f | .cnt f => "cnt." ++ f

def parseStage (s : String) : Option Stage :=
  let statsOf (aggs bys : String) : Option Stage :=
    ((aggs.splitOn "+").mapM parseAgg).map (fun a => Stage.stats a (if bys == "-" then [] else bys.splitOn "+"))
  let tcOf (span aggs by_ : String) : Option Stage :=
    match span.toNat?, (aggs.splitOn "+").mapM parseAgg with
    | some sp, some a => if sp == 0 || by_.isEmpty then none else some (Stage.tc sp a (if by_ == "-" then none else some by_))
    | _, _ => none
  match s.splitOn ":" with
  | ["stats", aggs, bys] => statsOf aggs bys
  | ["pstats", aggs, bys] => statsOf aggs bys
  | ["recs"] => some .recs
  | ["pages", k] => k.toNat?.map Stage.pages
  | ["tc", span, aggs, by_] => tcOf span aggs by_
  | ["ptc", span, aggs, by_] => tcOf span aggs by_
  | ["where", f, op, l] =>
    match parseOp op, parseLit l with
    | some op, some l => if f.isEmpty then none else some (Stage.where_ f op l)
    | _, _ => none
  | ["regex", f, op, h] =>
    match parseOp op, hexStr? h with
    | some op, some g => if f.isEmpty || g.isEmpty || !(op == .eq || op == .ne) then none else some (Stage.regex f op g)
    | _, _ => none
  | ["win", f, ls] =>
    match (ls.splitOn "+").mapM parseLit with
    | some ls => if f.isEmpty then none else some (Stage.win f ls)
    | none => none
  | ["tm", a, b] => match a.toNat?, b.toNat? with | some a, some b => some (Stage.tm a b) | _, _ => none
  | ["sql"] => some .sql
  | ["head", n] => n.toNat?.map Stage.head
  | ["tail", n] => n.toNat?.map Stage.tail
  | ["dedup", f] => if f.isEmpty then none else some (Stage.dedup f)
  | ["top", f, lim] => if f.isEmpty then none else if lim == "-" then some (Stage.top false f none) else lim.toNat?.map (fun n => Stage.top false f (some n))
  | ["rare", f, lim] => if f.isEmpty then none else if lim == "-" then some (Stage.top true f none) else lim.toNat?.map (fun n => Stage.top true f (some n))
  | _ => none

structure Query where
  from_ : Nat
  size : Nat
  start : Nat
  end_ : Nat
  filter : Filter
  stages : List Stage
  ftext : String := ""     -- the filter as written on the op line

def parseQuery (tok : String) : Option Query :=
  match tok.splitOn "/" with
  | "q" :: a :: b :: c :: d :: f :: stages =>
    match a.toNat?, b.toNat?, c.toNat?, d.toNat?, parseFilter f, stages.mapM parseStage with
    | some a, some b, some c, some d, some flt, some st => some { from_ := a, size := b, start := c, end_ := d, filter := flt, stages := st, ftext := f }
    | _, _, _, _, _, _ => none
  | _ => none

def showRat (q : Rat) : String := if q.den == 1 then toString q.num else s!"{q.num}/{q.den}"

def showVal : Val → String
  | .int i => s!"i{i}"
  | .dec _ t => s!"d{t}"
  | .str s => "s" ++ bytesHex (s.toUTF8.toList.map (·.toNat))
  | .bool b => if b then "b1" else "b0"

def joinNats (l : List Nat) : String := ",".intercalate (l.map toString)

/-- the blocks of a history, in flush order: the events `send`-ed between two flushes (`fl` / `ro`) form one block (the
write buffer of the index is cut at every flush; with at most a few dozen small events it never fills up earlier).
Events not yet sent, or sent after the last flush, are in no block.  `rq/…` tokens (a query run at that point of the
history) do not change what is stored, `st/<n>` tokens (the ingest stream of the following batches) only how it is laid out. -/
def flushedBlocks (toks : List String) : Option (List (List Event)) :=
  -- `st/<n>` (between batches): the following batches go to ingest stream n; every stream has its own write buffer, so a
  -- flush cuts one block PER STREAM that has pending events (in stream order; only the `nsgrant` latitude reads the blocks)
  let cut (pending : List (Nat × Event)) : List (List Event) :=
    let streams := (pending.map (·.1)).eraseDups
    streams.map (fun s => (pending.filter (·.1 == s)).map (·.2))
  let rec go (toks : List String) (cur : Nat) (batch pending : List (Nat × Event)) (blocks : List (List Event)) : Option (List (List Event)) :=
    match toks with
    | [] => some blocks
    | t :: r =>
      if t == "send" then go r cur [] (pending ++ batch) blocks
      else if t == "fl" || t == "ro" then go r cur batch [] (blocks ++ cut pending)
      else if t.startsWith "rq/" then go r cur batch pending blocks
      else if t.startsWith "st/" then
        match (t.drop 3).toString.toNat?, batch with
        | some n, [] => go r n [] pending blocks
        | _, _ => none
      else match parseEv t with
        | some e => go r cur (batch ++ [(cur, e)]) pending blocks
        | none => none
  go toks 0 [] [] []

/-- flushed events of a history: everything `send`-ed before the last `fl`/`ro` -/
def flushedEvents (toks : List String) : Option (List Event) := (flushedBlocks toks).map List.flatten

/-- the events that were `send`-ed after the last flush: they sit in the write buffer when the queries run.  The statement
(C01) speaks about flushed buffers only; whether the engine shows them is left to it. -/
def unflushedEvents (toks : List String) : List Event :=
  let rec go (toks : List String) (batch pending : List Event) : List Event :=
    match toks with
    | [] => pending
    | t :: r =>
      if t == "send" then go r [] (pending ++ batch)
      else if t == "fl" || t == "ro" then go r batch []
      else match parseEv t with
        | some e => go r (batch ++ [e]) pending
        | none => go r batch pending
  go toks [] []

/-- (vid, column) of every STRING value whose own block holds a JSON number in the same column: only there does the
writer's "one type per block column" rule (consolidateColumnTypes) apply, which may hand a numeric string back as a number -/
def numStrGrants (blocks : List (List Event)) : List (Nat × String) :=
  blocks.flatMap (fun blk =>
    let numCols := (blk.flatMap (fun e => e.fields.filterMap (fun (k, v) => match v with | .int _ | .dec _ _ => some k | _ => none))).eraseDups
    blk.flatMap (fun e => e.fields.filterMap (fun (k, v) => match v with
      | .str _ => if numCols.contains k then some (e.vid, k) else none
      | _ => none)))

def showKey (k : List String) : String := "\x1f".intercalate k
def hexOf (s : String) : String := bytesHex (s.toUTF8.toList.map (·.toNat))

/-- the specification's answer; `blocks` = the flushed events in their blocks (only the latitude `nsgrant` of `recs` depends
on the blocks); `unfl` = the events sent but not flushed when the queries run -/
def answerB (blocks : List (List Event)) (q : Query) (unfl : List Event := []) : String :=
  let evs := blocks.flatten
  -- filter stages in front of the answer stage
  let isPre : Stage → Bool := fun st => match st with
    | .where_ _ _ _ | .regex _ _ _ | .win _ _ | .tm _ _ | .sql => true | _ => false
  let pre := q.stages.takeWhile isPre
  let stages := q.stages.dropWhile isPre
  let isSql := pre.any (fun st => match st with | .sql => true | _ => false)
  -- `earliest=… latest=…` in the query text replaces the range of the request (whole seconds); whether an event exactly on
  -- the `latest` instant belongs to the range is left to the engine
  let tm : Option (Nat × Nat) := pre.findSome? (fun st => match st with | .tm a b => some (a * 1000, b * 1000) | _ => none)
  let q : Query := match tm with | some (a, b) => { q with start := a, end_ := b } | none => q
  let inr := evs.filter (inRange q.start q.end_)
  -- a `where` stage: the statement (C02) demands that it agrees with the same comparison in the search clause ON NUMERIC
  -- FIELDS; a value or literal that is not a number (text order, case, booleans) and an event lacking the field are
  -- left to the engine
  -- (repaired, patch c02-8: the where stage compared a QUOTED number with the canonical text of the field's number, so
  -- `where x="2.50"` / "5.0" / "+5" / "05" / "1e0" matched nothing, not even the stored text "2.50"; the class label
  -- where-quoted-number-not-canonical is no longer emitted, a recurrence is reported without a class)
  let evalPre (e : Event) (st : Stage) : Tri × Classes := match st with
    | .where_ f op l =>
      match e.get f, l.num? with
      | some v, some _ => if (v.aggNum?).isSome then ((evalCmp (some v) op l).1, []) else (.either, [])
      | _, _ => (.either, [])
    | .regex f op g =>
      -- `| regex f="…"`: the value matches the regular expression, exact case; only text values are judged
      match e.get f with
      | some (.str t) => let m := globChars g.toList t.toList; (Tri.ofBool (if op == .eq then m else !m), [])
      | _ => (.either, [])
    | .win f ls =>
      -- `| where in(f, a, b, …)`: the field equals one of the values; judged on numbers only
      match (e.get f).bind Val.aggNum?, ls.mapM Lit.num? with
      | some x, some qs => (Tri.ofBool (qs.any (· == x)), [])
      | _, _ => (.either, [])
    | .tm _ b => (if e.ts == b * 1000 then .either else .yes, [])
    | _ => (.yes, [])
  let evalW (e : Event) : Tri × Classes :=
    pre.foldl (fun (acc : Tri × Classes) st => let (t, c) := evalPre e st; (acc.1.and t, acc.2 ++ c)) (.yes, [])
  -- the SQL front end: same meaning; a text literal that equals the value up to case is left to the front end
  let sqlAdj (e : Event) (t : Tri) : Tri :=
    if !isSql then t else match q.filter with
      | .cmp f _ (.str p) => (match e.get f with
        | some (.str v) => if lower p == lower v && p != v then Tri.either else t
        | _ => t)
      | _ => t
  let evalBoth (e : Event) : Tri × Classes :=
    let (a, c1) := evalFilter e q.filter
    let (b, c2) := evalW e
    ((sqlAdj e a).and b, c1 ++ c2)
  let tri := inr.map (fun e => (e, evalBoth e))
  -- sent but not flushed: visible or not as the engine likes (never `must`)
  let unflMay := (unfl.filter (inRange q.start q.end_)).filter (fun e => (evalBoth e).1 != Tri.no)
  -- `!=` / NOT on a field that some event in range lacks: whether such an event matches is left to the
  -- engine by the statement (`may`), but the engine's answer must not depend on the layout (two-layout cases;
  -- the class labels negation-over-sparse-field / number-and-text-share-column were retired with the repairs
  -- c02-1, c02-2, c02-4: such a disagreement is now reported without a class)
  -- (repaired, patch c03-G: a query with a NEGATED free-text term that was already persistent when a segment was created
  -- got that segment's results from writer.applySearchSingleQuery, which ignored the negation; the class label
  -- pq-ingest-negated-term is no longer emitted, a recurrence is reported without a class)
  -- (repaired, patch c03-I: the ingest-time evaluation of a persistent query skipped a record that has none of the
  -- persistent queries' columns and answered "no" for a column the block does not have, so an event LACKING the compared
  -- field was missing from the stored results of `g!=RED`; the class label pq-ingest-record-without-query-columns is no
  -- longer emitted, a recurrence is reported by the two-layout comparison without a class)
  let cls := (tri.flatMap (fun (_, (_, c)) => c)).eraseDups
  let must := (tri.filter (fun (_, (t, _)) => t == Tri.yes)).map (·.1)
  let may := (tri.filter (fun (_, (t, _)) => t == Tri.either)).map (·.1) ++ unflMay
  match stages with
  | [] =>
    let ord := newestFirst (must ++ may)
    s!"kind=ids from={q.from_} size={q.size} order={joinNats (ord.map (·.vid))} ots={joinNats (ord.map (·.ts))} must={joinNats (must.map (·.vid))} may={joinNats (may.map (·.vid))} cls={",".intercalate cls}"
  | [.head n] =>
    -- `| head n`: the n newest matches (C05); ties on the cut may be cut anywhere — the same judgement as a size limit
    let ord := newestFirst (must ++ may)
    let size := if n < q.size then n else q.size
    s!"kind=ids from={q.from_} size={size} order={joinNats (ord.map (·.vid))} ots={joinNats (ord.map (·.ts))} must={joinNats (must.map (·.vid))} may={joinNats (may.map (·.vid))} cls={",".intercalate cls}"
  | [.tail n] =>
    -- `| tail n`: the last n of the (newest first) stream, i.e. the n oldest matches, in reverse order (oldest first)
    let ord := newestFirst must
    s!"kind=tail n={n} order={joinNats (ord.map (·.vid))} ots={joinNats (ord.map (·.ts))} nmay={may.length}"
  | [.dedup f] =>
    -- `| dedup f`: of the events that have f, the first one of every value in stream order = the newest (among equal
    -- timestamps: any); events lacking f are dropped
    let ord := newestFirst must
    let keyed := ord.filterMap (fun e => (e.get f).map (fun v => (v.keyText, e)))
    let keys := (keyed.map (·.1)).eraseDups
    let groups := keys.map (fun k =>
      let es := (keyed.filter (·.1 == k)).map (·.2)
      let top := match es with | e :: _ => e.ts | [] => 0
      s!"{hexOf k}@{top}:{"+".intercalate ((es.filter (·.ts == top)).map (fun e => toString e.vid))}")
    s!"kind=dedup groups={",".intercalate groups} nmay={may.length}"
  | [.top rare f limit] =>
    -- `| top f` / `| rare f`: the values of f with the number of matched events that hold them, most / least common first,
    -- 10 rows unless a limit is given.  Recorded deviation (class top-limit-keeps-by-key-order, pinned by the engine's
    -- tests): with a limit the engine orders the rows by the VALUES and keeps the last / first n of them, not the n most / least common
    let keyed := must.filterMap (fun e => (e.get f).map Val.keyText)
    let keys := keyed.eraseDups
    let rows := keys.map (fun k => s!"{hexOf k}={(keyed.filter (· == k)).length}")
    let tcls := match limit with | some _ => ["top-limit-keeps-by-key-order"] | none => []
    s!"kind=top rare={if rare then 1 else 0} limit={match limit with | some n => toString n | none => "-"} rows={",".intercalate rows} total={must.length} withf={keyed.length} nmay={may.length} cls={",".intercalate (cls ++ tcls)}"
  | [.pages k] =>
    let ord := newestFirst must
    s!"kind=pages k={k} order={joinNats (ord.map (·.vid))} ots={joinNats (ord.map (·.ts))} nmay={may.length}"
  | [.recs] =>
    let ord := newestFirst must
    let recs := ord.map (fun e => s!"{e.vid}@{e.ts}\{{",".intercalate ((sortBy (fun a b => a.1 ≤ b.1) e.fields).map (fun (k, v) => k ++ "=" ++ showVal v))}}")
    -- columns that hold non-numeric text somewhere in the dataset: numbers there may come back as decimal text (C01)
    let cols := (evs.flatMap (fun e => e.fields.map (·.1))).eraseDups
    let texty := cols.filter (fun c => evs.any (fun e => match e.get c with
      | some (.str t) => (numericText? t).isNone | some (.bool _) => true | _ => false))
    let grants := (numStrGrants blocks).map (fun (v, k) => s!"{v}:{k}")
    -- columns that hold a boolean and a value of another kind somewhere in the dataset: the boolean may come back as its text
    let boolmix := cols.filter (fun c => evs.any (fun e => match e.get c with | some (.bool _) => true | _ => false) &&
      evs.any (fun e => match e.get c with | some (.bool _) => false | some _ => true | none => false))
    s!"kind=recs from={q.from_} size={q.size} recs={";".intercalate recs} texty={",".intercalate texty} boolmix={",".intercalate boolmix} nsgrant={",".intercalate grants} may={joinNats (may.map (·.vid))} cls={",".intercalate cls}"
  | [.stats aggs bys] =>
    let groups := if bys.isEmpty then [([], must)] else groupBy must bys
    let rows := groups.map (fun (k, es) =>
      hexOf (showKey k) ++ "=" ++ ";".intercalate (aggs.map (fun a => match evalAgg es a with | .num q => showRat q | .none => "none")))
    let rows := sortBy (fun a b => a ≤ b) rows
    -- some matched event lacks a by-field: the comparison grants the extra empty-key group (lib/e2ecmp.py).  The former
    -- deviation classes by-field-sparse / measure-field-sparse / measure-field-absent-from-dataset are repaired and gone.
    let scls := if must.any (fun e => bys.any (fun b => (e.get b).isNone)) then ["grant:empty-by-key"] else []
    -- dc(f) where a matched event holds NUMERIC TEXT in f.  The specification counts distinct key texts ("7" and "007" are
    -- two values).  (a) The column holds numeric text and no JSON number: class dc-over-numeric-text, REPAIRED (patch
    -- c04-16: the query-time statistics fed the sketch the float64 image of the number, the ingest-time statistics the
    -- text; lib/e2ecmp.py L_FIXED — no latitude, a disagreement is reported under the name the defect had).  (b) The
    -- column holds numeric text AND JSON numbers among the matched events or in the block of a matched numeric string:
    -- label grant:dcmixed:<f>, the residual class
    -- e2e/stats/dc-over-numbers-and-numeric-text — whether 5 and "5" are one value is not stated, and the segment writer
    -- rewrites a numeric string that shares a block column with numbers as a number, so the record path sees another key
    -- than the ingest-time statistics.  The label names the aggregate it may explain, nothing else of the answer.
    let dcls := aggs.filterMap (fun a => match a with
      | .dc f =>
        let numText := must.any (fun e => match e.get f with | some (.str t) => (numericText? t).isSome | _ => false)
        let number := must.any (fun e => match e.get f with | some (.int _) => true | some (.dec _ _) => true | _ => false)
        -- … or a matched numeric string shares its BLOCK with a JSON number in f, matched or not (a block mate outside the
        -- query window is enough for the writer to store the string as a number: `numStrGrants`)
        let consolidated := (numStrGrants blocks).any (fun (v, k) => k == f && must.any (fun e => e.vid == v))
        if numText && (number || consolidated) then some ("grant:dcmixed:" ++ f)
        else if numText then some "dc-over-numeric-text" else none
      | _ => none)
    let scls := scls ++ dcls.eraseDups
    s!"kind=stats rows={",".intercalate rows} aggs={",".intercalate (aggs.map showAgg)} nmay={may.length} nmust={must.length} cls={",".intercalate (cls ++ scls)}"
  | [.tc span aggs by_] =>
    let showCells (bucket : Nat → Nat) : String :=
      let rows := (timechart bucket must by_).map (fun ((b, k), es) =>
        s!"{b}:" ++ (match by_, k with | none, _ => "-" | some _, none => "~" | some _, some t => hexOf t) ++ "=" ++
          ";".intercalate (aggs.map (fun a => match evalAgg es a with | .num q => showRat q | .none => "none")))
      ",".intercalate (sortBy (fun a b => a ≤ b) rows)
    let atEnd := must.any (fun e => e.ts == q.end_)
    let onGrid := q.start < q.end_ && (q.end_ - q.start) % span == 0
    let rows := showCells (tcBucket q.start q.end_ span)
    -- an event ON the end bound of the range whose end lies on the grid: own cell [end, end+span) is the other reading
    let rows2 := if atEnd && onGrid then " rows2=" ++ showCells (bucketOf q.start span) else ""
    -- (repaired, patch c04-8: an event on an end bound that is NOT on the grid used to be reported in a cell starting at
    -- end − span, which is no cell of the grid; the deviant answer is no longer printed, a recurrence is a plain mismatch)
    s!"kind=tchart span={span} rows={rows}{rows2} aggs={",".intercalate (aggs.map showAgg)} nmay={may.length} cls={",".intercalate cls}"
  | _ => "kind=unsupported"

/-- the answer over a plain event list (all events taken as one block; used by Oracle/C18E.lean) -/
def answer (evs : List Event) (q : Query) : String := answerB [evs] q

/-- harness restriction shared with the Go side (e2e_suite.go `e2eCardTooSmall`, where the reason is written down): a
dictionary limit `card=<n>` with 0 < n < 4 is not combined with a column that holds a boolean or a null in one event and a
number or a string in another one — the writer's flush does not return on such a dataset, a state the production limit (501)
cannot reach.  Decided on the tokens of the line (either layout's cfg). -/
def cardTooSmall (args : List String) : Bool :=
  let small := args.any (fun c => c.startsWith "card=" && (match (c.drop 5).toString.toNat? with
    | some n => decide (0 < n ∧ n < 4) | none => false))
  let kinds : List (String × Char) := args.flatMap (fun t =>
    if !t.startsWith "ev/" then [] else
    match t.splitOn "/" with
    | [_, _, _, fs] => if fs == "-" then [] else (fs.splitOn ",").filterMap (fun kv => match kv.splitOn "~" with
      | [k, v] => (v.toList.head?).map (fun c => (k, c))
      | _ => none)
    | _ => [])
  let boolish := (kinds.filter (fun (_, c) => c == 'b' || c == 'z')).map (·.1)
  let other := (kinds.filter (fun (_, c) => c == 'i' || c == 'd' || c == 's' || c == 'r')).map (·.1)
  small && boolish.any (fun k => other.contains k)

def e2e (args : List String) : String :=
  if cardTooSmall args then "bad-op" else
  -- split at the markers H and Q
  let (cfg, r1) := args.span (· != "H")
  let (hist, r2) := (r1.drop 1).span (fun t => t != "Q" && t != "H2")
  -- an optional second layout of the SAME events (H2 …) does not change the specification's answer
  let r2 := r2.dropWhile (· != "Q")
  let qs := (r2.drop 1).filter (fun t => t != "w" && t != "pqcheck")
  match flushedBlocks hist, qs.mapM parseQuery with
  | some blocks, some qs =>
    let _ := cfg
    let unfl := unflushedEvents hist
    " | ".intercalate (qs.map (fun q => answerB blocks q unfl))
  | _, _ => "bad-op"

def handle (cmd : String) (args : List String) : Option String :=
  match cmd with
  | "e2e" => some (e2e args)
  | _ => none
end Oracle.E2E
