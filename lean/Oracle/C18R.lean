import SigModel.Model.SegReader
import Oracle.Util
/- C18 kernel suite "segreader" (harness/cmd/corr/c18_segreader.go):

     segreader <enc> B <block> … M <mutation> O <op> …

   Two readers (A on the mutated file, B on the intact file) of SigModel.SegReader run over `loadOf crc32 …`.
   `decode` is the table payload ↦ records of the op line (zstd and the dictionary layout are not recomputed here);
   `clob` is the effect of a failed attempt on what a dictionary-encoded reader serves: the chunk data is read into
   the re-used file buffer BEFORE the checksum is compared and the dictionary words are slices of that buffer
   (all blocks of a generated file have the same layout, taken from the first block). -/
namespace Oracle.C18R
open SigModel.Wal (Bytes crc32)
open SigModel.Checksum SigModel.SegReader Oracle

def digits (s : String) : Bool := !s.isEmpty && s.all Char.isDigit

structure Blk where
  payload : Bytes
  recs : List Bytes      -- dict/raw
  ts : List Nat          -- ts
  absent : Bool

def parseBlk (enc : String) (t : String) : Option Blk :=
  if t == "-" then some { payload := [], recs := [], ts := [], absent := true } else
  match t.splitOn ":" with
  | [p, rs] =>
    if p.isEmpty || rs.isEmpty then none else
    match hexBytes? p with
    | none => none
    | some pl =>
      if pl.isEmpty then none else
      if enc == "ts" then
        ((rs.splitOn ",").mapM (fun r => if digits r && r.length ≤ 18 then r.toNat? else none)).map
          (fun ts => { payload := pl, recs := [], ts := ts, absent := false })
      else
        ((rs.splitOn ",").mapM (fun r => match hexBytes? r with | some b => if b.isEmpty then none else some b | none => none)).map
          (fun recs => { payload := pl, recs := recs, ts := [], absent := false })
  | _ => none

/-- offsets (into the chunk data, leading encoding byte included) and lengths of the records of a dictionary block,
    as `ReadDictEnc` lays them out: numWords u16, then per word TLV (type 2: 3+len bytes), numRecs u16, recNums u16… -/
def dictView (pl : Bytes) (nrec : Nat) : List (Nat × Nat) :=
  let u16 (i : Nat) : Nat := pl.getD i 0 + 256 * pl.getD (i + 1) 0
  let nw := u16 1
  let rec go (w : Nat) (idx : Nat) (acc : List (Nat × (Nat × Nat))) : List (Nat × (Nat × Nat)) :=
    match w with
    | 0 => acc
    | w + 1 =>
      let wl := 3 + u16 (idx + 1)
      let nr := u16 (idx + wl)
      let recs := (List.range nr).map (fun k => (u16 (idx + wl + 2 + 2 * k), (idx, wl)))
      go w (idx + wl + 2 + 2 * nr) (acc ++ recs)
  let m := go nw 3 []
  (List.range nrec).map (fun i => match m.find? (·.1 == i) with | some (_, ol) => ol | none => (0, 0))

/-- bytes that a failed `readChunkAt` has written into the buffer before it returned its error -/
def written (f : Bytes) (n off : Nat) : Bytes :=
  match readU32At f off, readU32At f (off + 4), readU32At f (off + 8) with
  | some m, some _, some l => if m = magic ∧ l ≤ n then (f.drop (off + dataOffset)).take l else []
  | _, _, _ => []

def overlay (w : Bytes) (view : List (Nat × Nat)) (old : Contents) : Contents :=
  (view.zip old).map (fun ((off, _), o) =>
    (List.range o.length).map (fun j => if off + j < w.length then w.getD (off + j) 0 else o.getD j 0))

structure Case where
  enc : String
  blks : List Blk
  metas : List BlkMeta
  fileA : Bytes
  fileB : Bytes

def mkCase (enc : String) (blks : List Blk) (mutS : List String) : Option Case :=
  let present := blks.filter (fun b => !b.absent)
  let f := fileOf crc32 (present.map (·.payload))
  let metas := (blks.foldl (fun (acc : List BlkMeta × Nat) b =>
    if b.absent then (acc.1 ++ [{ off := acc.2, len := 0 }], acc.2)
    else (acc.1 ++ [{ off := acc.2, len := b.payload.length }], acc.2 + dataOffset + b.payload.length)) ([], 0)).1
  let fA : Option Bytes := match mutS with
    | ["none"] => some f
    | ["cut", k] => if digits k && k.length < 8 then some (f.take (k.toNat?.getD 0)) else none
    | ["set", p, v] =>
      if digits p && p.length < 8 && digits v && v.length < 4 && (v.toNat?.getD 999) ≤ 255 then
        let p := p.toNat?.getD 0
        some (if p < f.length then f.set p (v.toNat?.getD 0) else f)
      else none
    | _ => none
  fA.map (fun fa => { enc := enc, blks := blks, metas := metas, fileA := fa, fileB := f })

def loadFor (c : Case) (f : Bytes) : Nat → Load :=
  let decode (d : Bytes) : Option Contents := (c.blks.find? (fun b => !b.absent && b.payload == d)).map (·.recs)
  let view : List (Nat × Nat) := match c.blks.find? (fun b => !b.absent) with
    | some b => if c.enc == "dict" then dictView b.payload b.recs.length else []
    | none => []
  let clob (b : Nat) (old : Contents) : Contents :=
    if c.enc != "dict" then old else
    match c.metas[b]? with
    | some m => overlay (written f m.len m.off) view old
    | none => old
  loadOf crc32 f c.metas decode clob

/-- timestamp reader: one chunk per block; `eof` only through a short read that passes the checksum / the legacy path -/
def tloadFor (c : Case) (f : Bytes) (b : Nat) : TLoad :=
  match c.metas[b]?, c.blks[b]? with
  | some m, some _ =>
    match readAt crc32 f m.len m.off with
    | (d, false) => (match c.blks.find? (fun x => !x.absent && x.payload == d) with | some x => .ok x.ts | none => .fail)
    | (_, true) =>
      -- was the error of the last chunk read an io.EOF pass-through?
      (match readChunkAt crc32 f m.len m.off with | .okEof _ => .eof | _ => .fail)
  | _, _ => .nometa

inductive XOp where
  | col (rd : Nat) (o : SigModel.SegReader.Op)
  | tsr (rd : Nat) (b i : Nat)

def parseOp (enc : String) (t : String) : Option XOp :=
  match t.toList with
  | k :: rest =>
    let rd := if k.isUpper then 1 else 0
    let k := k.toLower
    let rest := String.ofList rest
    if rest.isEmpty then none else
    if k == 'l' || k == 'p' then
      if digits rest && rest.length ≤ 3 && enc != "ts" then
        some (.col rd (if k == 'l' then .ld (rest.toNat?.getD 0) else .pr (rest.toNat?.getD 0)))
      else none
    else if k == 'r' || k == 't' then
      match rest.splitOn "." with
      | [b, i] =>
        if digits b && digits i && b.length ≤ 3 && i.length ≤ 3 && ((k == 't') == (enc == "ts")) then
          (if k == 'r' then some (.col rd (.rd (b.toNat?.getD 0) (i.toNat?.getD 0)))
           else some (.tsr rd (b.toNat?.getD 0) (i.toNat?.getD 0)))
        else none
      | _ => none
    else none
  | [] => none

def showRes : Res → String
  | .ok => "ok" | .err => "err" | .data r => bytesHex r | .norec => "none"

def runAll (c : Case) (ops : List XOp) : List String :=
  let lA := loadFor c c.fileA
  let lB := loadFor c c.fileB
  let tA := tloadFor c c.fileA
  let tB := tloadFor c c.fileB
  let rec go (ops : List XOp) (sa sb : St) (ta tb : TSt) (acc : List String) : List String :=
    match ops with
    | [] => acc.reverse
    | .col 0 o :: r => let (s, x) := step (readBlock lA) sa o; go r s sb ta tb (showRes x :: acc)
    | .col _ o :: r => let (s, x) := step (readBlock lB) sb o; go r sa s ta tb (showRes x :: acc)
    | .tsr 0 b i :: r => let (s, x) := tsRead tA ta b i; go r sa sb s tb ((match x with | some v => toString v | none => "none") :: acc)
    | .tsr _ b i :: r => let (s, x) := tsRead tB tb b i; go r sa sb ta s ((match x with | some v => toString v | none => "none") :: acc)
  go ops St.init St.init TSt.init TSt.init []

def segreader (args : List String) : String :=
  match args with
  | enc :: "B" :: rest =>
    if enc != "dict" && enc != "raw" && enc != "ts" then "bad-op" else
    let (btoks, r1) := rest.span (· != "M")
    match r1 with
    | "M" :: mutTok :: "O" :: optoks =>
      if btoks.isEmpty || optoks.isEmpty || btoks.length > 16 then "bad-op" else
      match btoks.mapM (parseBlk enc), optoks.mapM (parseOp enc) with
      | some blks, some ops =>
        (match mkCase enc blks (mutTok.splitOn ":") with
         | some c => " ".intercalate (runAll c ops)
         | none => "bad-op")
      | _, _ => "bad-op"
    | _ => "bad-op"
  | _ => "bad-op"

def handle (cmd : String) (args : List String) : Option String :=
  match cmd with
  | "segreader" => some (segreader args)
  | _ => none
end Oracle.C18R
