import SigModel.Model.Checksum
import Oracle.Util
/- suite "csf":  csf <mut> <from> <count> <hex;hex;...>
   reads chunks [from, from+count) with one ReadAt at chunkStart(from) → n=<bytes> err=<0|1> data=<hex> -/
namespace Oracle.C18
open SigModel.Wal SigModel.Checksum Oracle

def csf (args : List String) : String :=
  match args with
  | [m, a, c, h] =>
    match a.toNat?, c.toNat?, (if h = "-" then some [] else (h.splitOn ";").mapM hexBytes?) with
    | some a, some c, some chunks =>
      let f := fileOf crc32 chunks
      let f' := match m.splitOn ":" with
        | ["cut", k] => f.take (k.toNat?.getD 0)
        | ["set", p, b] => f.set (p.toNat?.getD 0) (b.toNat?.getD 0)
        | _ => f
      let want := ((chunks.drop a).take c).flatten.length
      let (d, e) := readAt crc32 f' want (chunkStart chunks a)
      s!"n={d.length} err={if e then 1 else 0} data={bytesHex d}"
    | _, _, _ => "bad-op"
  | _ => "bad-op"

def handle (cmd : String) (args : List String) : Option String :=
  match cmd with
  | "csf" => some (csf args)
  | _ => none
end Oracle.C18
