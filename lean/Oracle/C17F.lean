import Oracle.Util
/- Suites fx_c15 / fx_c20 / fx_c12 / fx_c17 (harness/cmd/corr/c17_alive_fx.go) and alivepar (c17_alive_par.go): request
   sequences against a real server process.  There is no model of the server: the verdict is the PropFail of the
   harness (the property statement on the answers); the Lean side checks the op-line grammar
   `fx <scenario> <hex>` / `pb <group> <hex>`.  Core Lean only. -/
namespace Oracle.C17F

def scenarios : List String := ["getdoc", "contact", "reload", "otlptrace", "searchbad"]
def groups : List String := ["alias", "usq", "qstats", "mixed", "statsfn"]

def hexOk (hx : String) : Bool := hx ≠ "" && (hexBytes? hx).isSome

def handle (cmd : String) (args : List String) : Option String :=
  match cmd, args with
  | "fx", [sc, hx] => some (if scenarios.contains sc && hexOk hx then "ok" else "bad-op")
  | "pb", [g, hx] => some (if groups.contains g && hexOk hx then "ok" else "bad-op")
  | "fx", _ => some "bad-op"
  | "pb", _ => some "bad-op"
  | _, _ => none
end Oracle.C17F
